import Invoke.Lemmas.Loader
/-! # C20 — the nearest enclosing tasks module is the one loaded, with its project dir

Property theorems only.  Model: `Invoke/Model/Loader.lean` (literal `FilesystemLoader.find` /
`Loader.load`); helper lemmas: `Invoke/Lemmas/Loader.lean`.  Paths are component lists below the
root, `d <+: p` ("`d` is a prefix of `p`") means "`d` is `p` or a directory above it" (`[]`, the root, is above everything).  `cwd` is the
(normal, absolute) working directory, `(isAbs, raw)` the start argument split at `/`. -/
namespace Inv.Loader

/-- for every start the visited directories are the start directory, its ancestors, the root `/`, and
    then the empty path string (which ends the walk with `CollectionNotFound`) -/
theorem find_eq (fs : FS) (cwd : Path) (isAbs : Bool) (raw : List Name) (name : Name) (hcwd : NoEmpty cwd) :
    find fs cwd isAbs raw name = findFrom fs name (dirsOf (absPath cwd isAbs raw).reverse) := by
  unfold find
  by_cases hp : absPath cwd isAbs raw = []
  · rw [hp, walkDirs_root]
    exact findFrom_dup fs name [] [none]
  · rw [walkDirs_nonroot _ hp (absPath_noEmpty cwd isAbs raw hcwd)]

/-- HEADLINE.  Whatever `find` reports lies at or above the start directory, really contains a module
    or package of that name, and NO directory strictly between it and the start directory (start
    included) contains one: the nearest candidate wins, never a farther one. -/
theorem find_nearest (fs : FS) (cwd : Path) (isAbs : Bool) (raw : List Name) (name : Name) (d : Path)
    (hcwd : NoEmpty cwd) (h : foundDir (find fs cwd isAbs raw name) = some d) :
    d <+: absPath cwd isAbs raw ∧ hasCandidate fs name d = true ∧
      ∀ d', d' <+: absPath cwd isAbs raw → d <+: d' → d' ≠ d → hasCandidate fs name d' = false := by
  rw [find_eq fs cwd isAbs raw name hcwd] at h
  obtain ⟨h1, h3, h4⟩ := findFrom_nearest fs name _ d h
  refine ⟨List.reverse_suffix.1 h1, h3, ?_⟩
  intro d' hd1 hd2 hd3
  have := h4 d'.reverse (List.reverse_suffix.2 hd1) (List.reverse_suffix.2 hd2)
    (fun e => hd3 (List.reverse_inj.1 e))
  simpa using this

/-- module beats package inside one directory, and each report is backed by the file it names -/
theorem find_kind (fs : FS) (cwd : Path) (isAbs : Bool) (raw : List Name) (name : Name) (d : Path) :
    (find fs cwd isAbs raw name = .module d → ∃ es, fs.ls d = some es ∧ es.contains (pyFile name) = true) ∧
    (find fs cwd isAbs raw name = .package d →
      ∃ es, fs.ls d = some es ∧ es.contains (pyFile name) = false ∧ es.contains name = true ∧
        fs.ex (d ++ [name, initPy]) = true) :=
  ⟨findFrom_module_has_file fs name _ d, findFrom_package_no_module fs name _ d⟩

/-- HEADLINE (completeness, full strength).  If the directories from the start up to the root can be
    listed (the start directory exists) and ANY directory at or above the start — the filesystem root
    included — contains a module or package of that name, something is found (and by `find_nearest`
    it is the nearest such directory). -/
theorem find_complete (fs : FS) (cwd : Path) (isAbs : Bool) (raw : List Name) (name : Name)
    (hcwd : NoEmpty cwd)
    (hex : ∀ d', d' <+: absPath cwd isAbs raw → (fs.ls d').isSome = true)
    (hc : ∃ d, d <+: absPath cwd isAbs raw ∧ hasCandidate fs name d = true) :
    ∃ d, foundDir (find fs cwd isAbs raw name) = some d := by
  rw [find_eq fs cwd isAbs raw name hcwd]
  apply findFrom_complete
  · intro s hs
    have h1 : s.reverse <+: absPath cwd isAbs raw := by
      have := List.reverse_prefix.2 hs
      simpa using this
    exact hex s.reverse h1
  · obtain ⟨d, hd, hcand⟩ := hc
    exact ⟨d.reverse, List.reverse_suffix.2 hd, by simpa using hcand⟩

/-- the rule before the repair (DESIGN §4 #25 "root"): the root directory was searched only when it
    was the start directory — `/tasks.py` exists, the walk starts in `/a`, nothing was found; the
    code as it is now finds it -/
theorem find_root_pinned_counterexample :
    let lay : Layout := [([], [['a'], "tasks.py".toList]), ([['a']], [])]
    findPinnedRoot (fsOf lay) [] true [[], ['a']] "tasks".toList = .notFound ∧
    hasCandidate (fsOf lay) "tasks".toList [] = true ∧
    find (fsOf lay) [] true [[], ['a']] "tasks".toList = .module [] ∧
    find (fsOf lay) [] true [[], []] "tasks".toList = .module [] := by decide

/-- when no directory at or above the start (the root included) contains a candidate, `find` raises
    `CollectionNotFound` — it never returns `None` and never reports anything -/
theorem not_found (fs : FS) (cwd : Path) (isAbs : Bool) (raw : List Name) (name : Name)
    (hcwd : NoEmpty cwd)
    (hno : ∀ d, d <+: absPath cwd isAbs raw → hasCandidate fs name d = false) :
    find fs cwd isAbs raw name = .notFound ∧
    loadFrom fs cwd isAbs raw name = .collectionNotFound := by
  have hf : find fs cwd isAbs raw name = .notFound := by
    rw [find_eq fs cwd isAbs raw name hcwd]
    apply findFrom_notFound
    intro s hs
    have h1 : s.reverse <+: absPath cwd isAbs raw := by
      have := List.reverse_prefix.2 hs
      simpa using this
    exact hno s.reverse h1
  exact ⟨hf, by unfold loadFrom; rw [hf]; rfl⟩

/-- the walk never ends normally: `find` never returns `None`, so `load` never raises the bare
    `ImportError` — absence is always reported as `CollectionNotFound` -/
theorem never_import_error (fs : FS) (cwd : Path) (isAbs : Bool) (raw : List Name) (name : Name)
    (hcwd : NoEmpty cwd) :
    find fs cwd isAbs raw name ≠ .noSpec ∧ loadFrom fs cwd isAbs raw name ≠ .importError := by
  have hf : find fs cwd isAbs raw name ≠ .noSpec := by
    rw [find_eq fs cwd isAbs raw name hcwd]
    exact findFrom_ne_noSpec fs name _
  refine ⟨hf, ?_⟩
  unfold loadFrom
  cases hr : find fs cwd isAbs raw name with
  | noSpec => exact absurd hr hf
  | module d => simp [load]
  | package d => simp [load]
  | notFound => simp [load]

/-- HEADLINE (project directory).  For a module `d/name.py` the reported project directory and the
    directory put on `sys.path` are both `d`; for a package `d/name/__init__.py` the project directory
    is `d` (the package's parent) while `sys.path` receives the package directory `d/name`. -/
theorem project_dir_rule (name : Name) (d : Path) :
    load name (.module d) = .ok ⟨d ++ [pyFile name], d, d⟩ ∧
    load name (.package d) = .ok ⟨d ++ [name, initPy], d ++ [name], d⟩ := by
  constructor
  · simp [load]
  · have h1 : (d ++ [name, initPy]).dropLast = d ++ [name] := by
      have : d ++ [name, initPy] = (d ++ [name]) ++ [initPy] := by simp
      rw [this, List.dropLast_concat]
    have h2 : (d ++ [name]).dropLast = d := List.dropLast_concat
    simp only [load, h1, h2]

/-- the project directory is the directory `find` reported, which by `find_nearest` is the nearest
    directory at or above the start that contains a candidate -/
theorem load_parent_is_found_dir (fs : FS) (cwd : Path) (isAbs : Bool) (raw : List Name) (name : Name)
    (l : Loaded) (h : loadFrom fs cwd isAbs raw name = .ok l) :
    foundDir (find fs cwd isAbs raw name) = some l.parent := by
  unfold loadFrom at h
  cases hr : find fs cwd isAbs raw name with
  | module d =>
    rw [hr, (project_dir_rule name d).1] at h
    cases h; rfl
  | package d =>
    rw [hr, (project_dir_rule name d).2] at h
    cases h; rfl
  | notFound => rw [hr] at h; simp [load] at h
  | noSpec => rw [hr] at h; simp [load] at h

/-! ### the start argument -/

/-- a trailing separator on the start argument changes nothing -/
theorem trailing_separator_irrelevant (fs : FS) (cwd : Path) (isAbs : Bool) (raw : List Name) (name : Name) :
    find fs cwd isAbs (raw ++ [[]]) name = find fs cwd isAbs raw name := by
  simp [find, absPath, List.foldl_append, normStep]

/-- a relative start is resolved against the working directory before walking upwards: it behaves
    exactly like the corresponding absolute start (this is the repaired behaviour, DESIGN §4 #25) -/
theorem relative_start_resolved (fs : FS) (cwd : Path) (raw : List Name) (name : Name)
    (hcwd : ∀ c ∈ cwd, Plain c) :
    find fs cwd false raw name = find fs [] true (cwd ++ raw) name := by
  simp only [find, absPath, List.foldl_append, Bool.false_eq_true, if_false, if_true]
  rw [foldl_normStep_plain cwd hcwd []]
  simp

/-- the behaviour before the repair: `-r b` from `/a` with `/a/tasks.py` — nothing above `b` was searched -/
theorem relative_start_pinned_counterexample :
    let lay : Layout := [([], [['a']]), ([['a']], [['b'], "tasks.py".toList]), ([['a'], ['b']], [])]
    findPinnedRel (fsOf lay) [['a']] [['b']] "tasks".toList = .notFound ∧
    find (fsOf lay) [['a']] false [['b']] "tasks".toList = .module [['a']] := by decide

/-! ### non-vacuity -/

/-- `/p/tasks/__init__.py` and `/p/q/tasks.py`, a bare `/p/q/r/tasks/` directory without `__init__.py` -/
def exLay : Layout :=
  [([], [['p']]),
   ([['p']], [['q'], "tasks".toList, "invoke.yaml".toList]),
   ([['p'], "tasks".toList], [initPy]),
   ([['p'], ['q']], [['r'], "tasks.py".toList, "tasks".toList]),
   ([['p'], ['q'], "tasks".toList], [initPy]),
   ([['p'], ['q'], ['r']], ["tasks".toList]),
   ([['p'], ['q'], ['r'], "tasks".toList], [])]

example : find (fsOf exLay) [] true [[], ['p'], ['q'], ['r']] "tasks".toList = .module [['p'], ['q']] := by decide
example : find (fsOf exLay) [['p']] false [['.']] "tasks".toList = .package [['p']] := by decide
example : find (fsOf exLay) [['p'], ['q'], ['r']] false [dotdot, dotdot, []] "tasks".toList = .package [['p']] := by decide
example : find (fsOf exLay) [['p'], ['q']] false [] "other".toList = .notFound := by decide
example : loadFrom (fsOf exLay) [['p']] false [] "tasks".toList =
    .ok ⟨[['p'], "tasks".toList, initPy], [['p'], "tasks".toList], [['p']]⟩ := by decide
example : NoEmpty [['p'], ['q']] := by intro c hc; simp at hc; rcases hc with rfl | rfl <;> simp
example : ∀ c ∈ ([['p'], ['q']] : Path), Plain c := by
  intro c hc; simp at hc; rcases hc with rfl | rfl <;> simp [Plain, dotdot]
/-- the hypotheses of `find_complete` hold for the start `/p/q/r` -/
example : (∀ d', d' <+: absPath [] true [[], ['p'], ['q'], ['r']] → ((fsOf exLay).ls d').isSome = true) ∧
    hasCandidate (fsOf exLay) "tasks".toList [['p'], ['q']] = true := by
  refine ⟨?_, by decide⟩
  intro d' h
  have : absPath [] true [[], ['p'], ['q'], ['r']] = [['p'], ['q'], ['r']] := by decide
  rw [this] at h
  have hlen := h.length_le
  obtain ⟨t, ht⟩ := h
  match d', t, ht with
  | [], _, _ => decide
  | [a], t, ht => simp at ht; obtain ⟨rfl, _⟩ := ht; decide
  | [a, b], t, ht => simp at ht; obtain ⟨rfl, rfl, _⟩ := ht; decide
  | [a, b, c], t, ht => simp at ht; obtain ⟨rfl, rfl, rfl, _⟩ := ht; decide
  | _ :: _ :: _ :: _ :: _, _, _ => simp at hlen

/-! ### one loader object used several times

`LoaderObj` (`Model/Loader.lean`) stores only the explicit start it was constructed with, if any; `runLoader`
is the trace semantics of a history (chdir / filesystem changes / loads / reads of `.start`) on one object.
The harness replays the same histories on one real `FilesystemLoader`. -/

/-- a loader WITHOUT explicit start searches from the working directory current AT THE TIME OF THE CALL:
    the directories visited are that directory and its ancestors, whatever the loader was used for before -/
theorem default_start_is_cwd_of_the_call (fs : FS) (cwd : Path) (name : Name) (h : ∀ c ∈ cwd, Plain c) :
    (LoaderObj.mk none).findAt fs cwd name = findFrom fs name (walkDirs cwd) ∧
    (LoaderObj.mk none).findAt fs cwd name = find fs cwd false [] name := by
  have h1 : absPath cwd true ([] :: cwd) = cwd := absPath_getcwd cwd cwd h
  have h2 : absPath cwd false [] = cwd := by simp [absPath]
  refine ⟨?_, ?_⟩
  · show findFrom fs name (walkDirs (absPath cwd true ([] :: cwd))) = _
    rw [h1]
  · show findFrom fs name (walkDirs (absPath cwd true ([] :: cwd))) = findFrom fs name (walkDirs (absPath cwd false []))
    rw [h1, h2]

/-- a loader WITH an explicit absolute start (argument or `tasks.search_root`) does not follow the working directory -/
theorem explicit_absolute_start_ignores_cwd (raw : List Name) (fs : FS) (cwd cwd' : Path) (name : Name) :
    (LoaderObj.mk (some (true, raw))).loadAt fs cwd name = (LoaderObj.mk (some (true, raw))).loadAt fs cwd' name := by
  simp [LoaderObj.loadAt, LoaderObj.findAt, LoaderObj.startAt, find, absPath]

/-- the answer of a load depends only on the loader's construction-time start and on the process state
    (working directory, filesystem) AT THE TIME OF THE CALL, never on earlier loads, finds or reads of
    `.start`: a history splits at any point into "reach that process state, then go on" -/
theorem history_load_depends_only_on_current_world (l : LoaderObj) (w : World) (pre post : List LStep) :
    runLoader l w (pre ++ post) = runLoader l w pre ++ runLoader l (worldAfter w pre) post :=
  runLoader_append l pre post w

/-- HEADLINE over histories.  Whatever one loader without explicit start was used for before - in whichever
    directories - what a load reports as project directory is at or above the CURRENT working directory,
    contains a module or package of that name in the CURRENT filesystem, and no directory strictly between it
    and the current working directory (that directory included) contains one. -/
theorem history_load_is_nearest_of_current_cwd (w : World) (pre : List LStep) (name : Name) (res : Loaded)
    (hcwd : ∀ c ∈ (worldAfter w pre).cwd, Plain c)
    (h : (runLoader (LoaderObj.mk none) w (pre ++ [LStep.load name])).getLast? = some (.ok res)) :
    res.parent <+: (worldAfter w pre).cwd ∧ hasCandidate (worldAfter w pre).fs name res.parent = true ∧
      ∀ d', d' <+: (worldAfter w pre).cwd → res.parent <+: d' → d' ≠ res.parent →
        hasCandidate (worldAfter w pre).fs name d' = false := by
  rw [runLoader_append] at h
  simp only [runLoader, List.getLast?_append, List.getLast?_singleton, Option.some_or,
    Option.some.injEq] at h
  have hl : loadFrom (worldAfter w pre).fs (worldAfter w pre).cwd true ([] :: (worldAfter w pre).cwd) name = .ok res := h
  have hf := load_parent_is_found_dir _ _ _ _ _ _ hl
  have hn := find_nearest _ _ _ _ _ _ (noEmpty_of_plain _ hcwd) hf
  rw [absPath_getcwd _ _ hcwd] at hn
  exact hn

/-- non-vacuity: ONE loader without explicit start, used in `/p/q/r` (finds the module of `/p/q`), then - after
    `.start` was read and the process changed to `/p` - used again: it finds the package of `/p`; asked for
    another name in between: not found; a loader with the explicit start `/p/q/r` keeps finding `/p/q` -/
example : runLoader (LoaderObj.mk none) ⟨fsOf exLay, [['p'], ['q'], ['r']]⟩
      [.load "tasks".toList, .readStart, .chdir [['p']], .load "other".toList, .load "tasks".toList] =
    [.ok ⟨[['p'], ['q'], "tasks.py".toList], [['p'], ['q']], [['p'], ['q']]⟩, .collectionNotFound,
     .ok ⟨[['p'], "tasks".toList, initPy], [['p'], "tasks".toList], [['p']]⟩] := by decide
example : runLoader (LoaderObj.mk (some (true, [[], ['p'], ['q'], ['r']]))) ⟨fsOf exLay, [['p'], ['q'], ['r']]⟩
      [.load "tasks".toList, .readStart, .chdir [['p']], .load "tasks".toList] =
    [.ok ⟨[['p'], ['q'], "tasks.py".toList], [['p'], ['q']], [['p'], ['q']]⟩,
     .ok ⟨[['p'], ['q'], "tasks.py".toList], [['p'], ['q']], [['p'], ['q']]⟩] := by decide

/-! ### directories named like the collection

`load` tells a package from a module by what `find` found (`spec.parent`), never by the NAME of the
enclosing directory: a plain module `build.py` inside a directory that is itself called `build` is a module,
and its project directory is that directory. -/

/-- `/ws/build/build.py` (a module in a directory of its own name, next to a decoy `/ws/invoke.yaml`), and
    `/ws/tasks/__init__.py` with `/ws/tasks/tasks/tasks.py` inside the package directory -/
def exNamedLay : Layout :=
  [([], [['w', 's']]),
   ([['w', 's']], ["build".toList, "tasks".toList, "invoke.yaml".toList]),
   ([['w', 's'], "build".toList], ["build.py".toList, "deep".toList, "invoke.yaml".toList]),
   ([['w', 's'], "build".toList, "deep".toList], []),
   ([['w', 's'], "tasks".toList], [initPy, "tasks".toList]),
   ([['w', 's'], "tasks".toList, "tasks".toList], ["tasks.py".toList])]

/-- module in a same-named directory: project directory = that directory (not its parent), from the directory
    itself and from below -/
example : loadFrom (fsOf exNamedLay) [] true [[], ['w', 's'], "build".toList, "deep".toList] "build".toList =
    .ok ⟨[['w', 's'], "build".toList, "build.py".toList], [['w', 's'], "build".toList], [['w', 's'], "build".toList]⟩ ∧
    loadFrom (fsOf exNamedLay) [['w', 's'], "build".toList] false [] "build".toList =
    .ok ⟨[['w', 's'], "build".toList, "build.py".toList], [['w', 's'], "build".toList], [['w', 's'], "build".toList]⟩ := by
  decide
/-- `tasks/tasks/tasks.py`: from the innermost directory the module there wins and its directory is the project
    directory; from the package directory `/ws/tasks` (whose `tasks/` entry has no `__init__.py`) the package
    `/ws/tasks/__init__.py` is found one level up and the project directory is `/ws` -/
example : loadFrom (fsOf exNamedLay) [] true [[], ['w', 's'], "tasks".toList, "tasks".toList] "tasks".toList =
    .ok ⟨[['w', 's'], "tasks".toList, "tasks".toList, "tasks.py".toList], [['w', 's'], "tasks".toList, "tasks".toList],
         [['w', 's'], "tasks".toList, "tasks".toList]⟩ ∧
    loadFrom (fsOf exNamedLay) [] true [[], ['w', 's'], "tasks".toList] "tasks".toList =
    .ok ⟨[['w', 's'], "tasks".toList, initPy], [['w', 's'], "tasks".toList], [['w', 's']]⟩ := by decide
/-- a start spelled with `..` that steps out of a directory holding a candidate: `/ws/build/../tasks/..` is `/ws`,
    where nothing is found - `/ws/build/build.py` is not at or above the start -/
example : find (fsOf exNamedLay) [] true [[], ['w', 's'], "build".toList, dotdot, "tasks".toList, dotdot] "build".toList = .notFound ∧
    find (fsOf exNamedLay) [['w', 's'], "build".toList, "deep".toList] false [dotdot, dotdot] "build".toList = .notFound := by decide

/-! ### collection names containing a dot

Names are opaque `List Char`: nothing in the model looks inside a name (`pyFile name` appends `.py`, the package
test is `name ∈ ls d ∧ d/name/__init__.py exists`), so every theorem above already covers a dotted collection name
`a.b` (module `a.b.py`, package `a.b/`).  In particular `project_dir_rule` tells module from package by what `find`
found, never by the name: the module `a.b.py` keeps its own directory as project directory. -/

/-- `/ws/proj/a.b.py` (module) and `/ws/a.b/__init__.py` (package) -/
def exDottedLay : Layout :=
  [([], [['w', 's']]),
   ([['w', 's']], ["proj".toList, "a.b".toList]),
   ([['w', 's'], "a.b".toList], [initPy]),
   ([['w', 's'], "proj".toList], ["a.b.py".toList, "deep".toList]),
   ([['w', 's'], "proj".toList, "deep".toList], [])]

example : loadFrom (fsOf exDottedLay) [] true [[], ['w', 's'], "proj".toList, "deep".toList] "a.b".toList =
    .ok ⟨[['w', 's'], "proj".toList, "a.b.py".toList], [['w', 's'], "proj".toList], [['w', 's'], "proj".toList]⟩ ∧
    loadFrom (fsOf exDottedLay) [] true [[], ['w', 's']] "a.b".toList =
    .ok ⟨[['w', 's'], "a.b".toList, initPy], [['w', 's'], "a.b".toList], [['w', 's']]⟩ := by decide

/-- …and so is the name `__init__` itself: `inv -c __init__` finds the plain MODULE `/ws/proj/__init__.py`
    (`pyFile "__init__" = initPy`); it is a module, so the project directory is `/ws/proj` - the file NAME does not
    make it a package; the package of that name would be `/ws/proj/__init__/__init__.py` -/
example : pyFile "__init__".toList = initPy ∧
    loadFrom (fsOf [([], [['w', 's']]), ([['w', 's']], ["proj".toList]), ([['w', 's'], "proj".toList], [initPy, "deep".toList]),
                    ([['w', 's'], "proj".toList, "deep".toList], [])])
      [] true [[], ['w', 's'], "proj".toList, "deep".toList] "__init__".toList =
    .ok ⟨[['w', 's'], "proj".toList, initPy], [['w', 's'], "proj".toList], [['w', 's'], "proj".toList]⟩ ∧
    loadFrom (fsOf [([], [['w', 's']]), ([['w', 's']], ["__init__".toList]), ([['w', 's'], "__init__".toList], [initPy])])
      [] true [[], ['w', 's']] "__init__".toList =
    .ok ⟨[['w', 's'], "__init__".toList, initPy], [['w', 's'], "__init__".toList], [['w', 's']]⟩ := by decide

/-- a candidate that sits in the filesystem root: `/mycoll/__init__.py`, start `/p/q` -/
def exRootLay : Layout :=
  [([], [['p'], "mycoll".toList]), (["mycoll".toList], [initPy]), ([['p']], [['q']]), ([['p'], ['q']], [])]

example : find (fsOf exRootLay) [] true [[], ['p'], ['q']] "mycoll".toList = .package [] ∧
    hasCandidate (fsOf exRootLay) "mycoll".toList [] = true ∧
    loadFrom (fsOf exRootLay) [['p']] false [['q'], []] "mycoll".toList =
      .ok ⟨["mycoll".toList, initPy], ["mycoll".toList], []⟩ := by decide
/-- … and nothing anywhere: `CollectionNotFound` after the root has been listed -/
example : find (fsOf exRootLay) [] true [[], ['p'], ['q']] "tasks".toList = .notFound := by decide

end Inv.Loader
