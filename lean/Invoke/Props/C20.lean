import Invoke.Lemmas.Loader
/-! # C20 — the nearest enclosing tasks module is the one loaded, with its project dir

Property theorems only.  Model: `Invoke/Model/Loader.lean` (literal `FilesystemLoader.find` /
`Loader.load`); helper lemmas: `Invoke/Lemmas/Loader.lean`.  Paths are component lists below the
root, `d <+: p` ("`d` is a prefix of `p`") means "`d` is `p` or a directory above it".  `cwd` is the
(normal, absolute) working directory, `(isAbs, raw)` the start argument split at `/`. -/
namespace Inv.Loader

theorem find_eq_root (fs : FS) (cwd : Path) (isAbs : Bool) (raw : List Name) (name : Name)
    (hp : absPath cwd isAbs raw = []) :
    find fs cwd isAbs raw name = findFrom fs name [some [], none, none] := by
  unfold find
  rw [hp, walkDirs_root]

theorem find_eq_nonroot (fs : FS) (cwd : Path) (isAbs : Bool) (raw : List Name) (name : Name)
    (hcwd : NoEmpty cwd) (hp : absPath cwd isAbs raw ≠ []) :
    find fs cwd isAbs raw name = findFrom fs name (dirsOf (absPath cwd isAbs raw).reverse) := by
  unfold find
  rw [walkDirs_nonroot _ hp (absPath_noEmpty cwd isAbs raw hcwd)]

/-- HEADLINE.  Whatever `find` reports lies at or above the start directory, really contains a module
    or package of that name, and NO directory strictly between it and the start directory (start
    included) contains one: the nearest candidate wins, never a farther one. -/
theorem find_nearest (fs : FS) (cwd : Path) (isAbs : Bool) (raw : List Name) (name : Name) (d : Path)
    (hcwd : NoEmpty cwd) (h : foundDir (find fs cwd isAbs raw name) = some d) :
    d <+: absPath cwd isAbs raw ∧ hasCandidate fs name d = true ∧
      ∀ d', d' <+: absPath cwd isAbs raw → d <+: d' → d' ≠ d → hasCandidate fs name d' = false := by
  by_cases hp : absPath cwd isAbs raw = []
  · rw [find_eq_root fs cwd isAbs raw name hp] at h
    rw [hp]
    cases hc : hasCandidate fs name [] with
    | true =>
      rw [step_found fs name [] _ hc] at h
      cases h
      refine ⟨List.prefix_refl _, hc, ?_⟩
      intro d' h1 _ h3
      exact absurd (List.prefix_nil.1 h1) h3
    | false =>
      cases hl : fs.ls [] with
      | none => rw [step_noDir fs name [] _ hl] at h; cases h
      | some es =>
        rw [step_skip fs name [] _ es hl hc] at h
        simp [findFrom, foundDir] at h
  · rw [find_eq_nonroot fs cwd isAbs raw name hcwd hp] at h
    obtain ⟨h1, _, h3, h4⟩ := findFrom_nearest fs name _ d h
    refine ⟨List.reverse_suffix.1 h1, h3, ?_⟩
    intro d' hd1 hd2 hd3
    have := h4 d'.reverse (List.reverse_suffix.2 hd1) (List.reverse_suffix.2 hd2)
      (fun e => hd3 (List.reverse_inj.1 e))
    simpa using this

/-- module beats package inside one directory, and each report is backed by the file it names -/
theorem find_kind (fs : FS) (cwd : Path) (isAbs : Bool) (raw : List Name) (name : Name) (d : Path) :
    (find fs cwd isAbs raw name = .module d → ∃ es, fs.ls d = some es ∧ es.contains (pyFile name) = true) ∧
    (find fs cwd isAbs raw name = .package d →
      ∃ es, fs.ls d = some es ∧ es.contains (pyFile name) = false ∧ es.contains name = true ∧
        fs.ex (d ++ [name, initPy]) = true) :=
  ⟨findFrom_module_has_file fs name _ d, findFrom_package_no_module fs name _ d⟩

/-- completeness — PARTIAL: a candidate at or above the start directory is found provided the
    directories from the start upwards can be listed AND the candidate is not in the filesystem root
    (or the start directory is the root itself).  What is missing for full strength is exactly the
    root directory: see `find_root_counterexample`. -/
theorem find_complete_partial (fs : FS) (cwd : Path) (isAbs : Bool) (raw : List Name) (name : Name)
    (hcwd : NoEmpty cwd)
    (hex : ∀ d', d' <+: absPath cwd isAbs raw → d' ≠ [] → (fs.ls d').isSome = true)
    (hc : ∃ d, d <+: absPath cwd isAbs raw ∧ (d ≠ [] ∨ absPath cwd isAbs raw = []) ∧
            hasCandidate fs name d = true) :
    ∃ d, foundDir (find fs cwd isAbs raw name) = some d := by
  by_cases hp : absPath cwd isAbs raw = []
  · rw [find_eq_root fs cwd isAbs raw name hp]
    obtain ⟨d, hd, _, hcand⟩ := hc
    rw [hp] at hd
    rw [List.prefix_nil.1 hd] at hcand
    exact ⟨[], step_found fs name [] _ hcand⟩
  · rw [find_eq_nonroot fs cwd isAbs raw name hcwd hp]
    apply findFrom_complete
    · intro s hs hne
      have h1 : s.reverse <+: absPath cwd isAbs raw := by
        have := List.reverse_prefix.2 hs
        simpa using this
      exact hex s.reverse h1 (fun e => hne (by simpa using e))
    · obtain ⟨d, hd, hor, hcand⟩ := hc
      have hdne : d ≠ [] := by
        rcases hor with h | h
        · exact h
        · exact absurd h hp
      exact ⟨d.reverse, List.reverse_suffix.2 hd, fun e => hdne (by simpa using e), by simpa using hcand⟩

/-- the root directory is never searched unless it is the start directory: `/tasks.py` exists, the
    walk starts in `/a`, nothing is found (known finding, DESIGN §4 #25 "root") -/
theorem find_root_counterexample :
    let lay : Layout := [([], [['a'], "tasks.py".toList]), ([['a']], [])]
    find (fsOf lay) [] true [[], ['a']] "tasks".toList = .notFound ∧
    hasCandidate (fsOf lay) "tasks".toList [] = true ∧
    find (fsOf lay) [] true [[], []] "tasks".toList = .module [] := by decide

/-- when no directory on the way up (the root only if it is the start directory) contains a candidate,
    `find` raises `CollectionNotFound` — it never returns `None` and never reports anything -/
theorem not_found (fs : FS) (cwd : Path) (isAbs : Bool) (raw : List Name) (name : Name)
    (hcwd : NoEmpty cwd)
    (hno : ∀ d, d <+: absPath cwd isAbs raw → (d ≠ [] ∨ absPath cwd isAbs raw = []) →
            hasCandidate fs name d = false) :
    find fs cwd isAbs raw name = .notFound ∧
    loadFrom fs cwd isAbs raw name = .collectionNotFound := by
  have hf : find fs cwd isAbs raw name = .notFound := by
    by_cases hp : absPath cwd isAbs raw = []
    · rw [find_eq_root fs cwd isAbs raw name hp]
      have hc := hno [] (by rw [hp]; exact List.prefix_refl _) (Or.inr hp)
      cases hl : fs.ls [] with
      | none => exact step_noDir fs name [] _ hl
      | some es => rw [step_skip fs name [] _ es hl hc]; simp [findFrom]
    · rw [find_eq_nonroot fs cwd isAbs raw name hcwd hp]
      apply findFrom_notFound
      intro s hs hne
      have h1 : s.reverse <+: absPath cwd isAbs raw := by
        have := List.reverse_prefix.2 hs
        simpa using this
      exact hno s.reverse h1 (Or.inl (fun e => hne (by simpa using e)))
  exact ⟨hf, by unfold loadFrom; rw [hf]; rfl⟩

/-- the walk never ends normally: `find` never returns `None`, so `load` never raises the bare
    `ImportError` — absence is always reported as `CollectionNotFound` -/
theorem never_import_error (fs : FS) (cwd : Path) (isAbs : Bool) (raw : List Name) (name : Name)
    (hcwd : NoEmpty cwd) :
    find fs cwd isAbs raw name ≠ .noSpec ∧ loadFrom fs cwd isAbs raw name ≠ .importError := by
  have hf : find fs cwd isAbs raw name ≠ .noSpec := by
    by_cases hp : absPath cwd isAbs raw = []
    · rw [find_eq_root fs cwd isAbs raw name hp]
      cases hc : hasCandidate fs name [] with
      | true =>
        intro e
        have := step_found fs name [] [none, none] hc
        rw [e] at this
        cases this
      | false =>
        cases hl : fs.ls [] with
        | none => rw [step_noDir fs name [] _ hl]; intro e; cases e
        | some es => rw [step_skip fs name [] _ es hl hc]; simp [findFrom]
    · rw [find_eq_nonroot fs cwd isAbs raw name hcwd hp]
      exact findFrom_ne_noSpec fs name _
  refine ⟨hf, ?_⟩
  unfold loadFrom
  cases hr : find fs cwd isAbs raw name with
  | noSpec => exact absurd hr hf
  | module d => simp [load]
  | package d => simp [load]
  | notFound => simp [load]

/-- HEADLINE (project directory).  For a module `d/name.py` the reported project directory and the
    directory put on `sys.path` are both `d`; for a package `d/name/__init__.py` the project directory
    is `d` (the package's parent) while `sys.path` receives the package directory `d/name`. -/
theorem project_dir_rule (name : Name) (d : Path) :
    load name (.module d) = .ok ⟨d ++ [pyFile name], d, d⟩ ∧
    load name (.package d) = .ok ⟨d ++ [name, initPy], d ++ [name], d⟩ := by
  constructor
  · simp [load]
  · have h1 : (d ++ [name, initPy]).dropLast = d ++ [name] := by
      have : d ++ [name, initPy] = (d ++ [name]) ++ [initPy] := by simp
      rw [this, List.dropLast_concat]
    have h2 : (d ++ [name]).dropLast = d := List.dropLast_concat
    simp only [load, h1, h2]

/-- the project directory is the directory `find` reported, which by `find_nearest` is the nearest
    directory at or above the start that contains a candidate -/
theorem load_parent_is_found_dir (fs : FS) (cwd : Path) (isAbs : Bool) (raw : List Name) (name : Name)
    (l : Loaded) (h : loadFrom fs cwd isAbs raw name = .ok l) :
    foundDir (find fs cwd isAbs raw name) = some l.parent := by
  unfold loadFrom at h
  cases hr : find fs cwd isAbs raw name with
  | module d =>
    rw [hr, (project_dir_rule name d).1] at h
    cases h; rfl
  | package d =>
    rw [hr, (project_dir_rule name d).2] at h
    cases h; rfl
  | notFound => rw [hr] at h; simp [load] at h
  | noSpec => rw [hr] at h; simp [load] at h

/-! ### the start argument -/

/-- a trailing separator on the start argument changes nothing -/
theorem trailing_separator_irrelevant (fs : FS) (cwd : Path) (isAbs : Bool) (raw : List Name) (name : Name) :
    find fs cwd isAbs (raw ++ [[]]) name = find fs cwd isAbs raw name := by
  simp [find, absPath, List.foldl_append, normStep]

/-- a relative start is resolved against the working directory before walking upwards: it behaves
    exactly like the corresponding absolute start (this is the repaired behaviour, DESIGN §4 #25) -/
theorem relative_start_resolved (fs : FS) (cwd : Path) (raw : List Name) (name : Name)
    (hcwd : ∀ c ∈ cwd, Plain c) :
    find fs cwd false raw name = find fs [] true (cwd ++ raw) name := by
  simp only [find, absPath, List.foldl_append, Bool.false_eq_true, if_false, if_true]
  rw [foldl_normStep_plain cwd hcwd []]
  simp

/-- the behaviour before the repair: `-r b` from `/a` with `/a/tasks.py` — nothing above `b` was searched -/
theorem relative_start_pinned_counterexample :
    let lay : Layout := [([], [['a']]), ([['a']], [['b'], "tasks.py".toList]), ([['a'], ['b']], [])]
    findPinnedRel (fsOf lay) [['a']] [['b']] "tasks".toList = .notFound ∧
    find (fsOf lay) [['a']] false [['b']] "tasks".toList = .module [['a']] := by decide

/-! ### non-vacuity -/

/-- `/p/tasks/__init__.py` and `/p/q/tasks.py`, a bare `/p/q/r/tasks/` directory without `__init__.py` -/
def exLay : Layout :=
  [([], [['p']]),
   ([['p']], [['q'], "tasks".toList, "invoke.yaml".toList]),
   ([['p'], "tasks".toList], [initPy]),
   ([['p'], ['q']], [['r'], "tasks.py".toList, "tasks".toList]),
   ([['p'], ['q'], "tasks".toList], [initPy]),
   ([['p'], ['q'], ['r']], ["tasks".toList]),
   ([['p'], ['q'], ['r'], "tasks".toList], [])]

example : find (fsOf exLay) [] true [[], ['p'], ['q'], ['r']] "tasks".toList = .module [['p'], ['q']] := by decide
example : find (fsOf exLay) [['p']] false [['.']] "tasks".toList = .package [['p']] := by decide
example : find (fsOf exLay) [['p'], ['q'], ['r']] false [dotdot, dotdot, []] "tasks".toList = .package [['p']] := by decide
example : find (fsOf exLay) [['p'], ['q']] false [] "other".toList = .notFound := by decide
example : loadFrom (fsOf exLay) [['p']] false [] "tasks".toList =
    .ok ⟨[['p'], "tasks".toList, initPy], [['p'], "tasks".toList], [['p']]⟩ := by decide
example : NoEmpty [['p'], ['q']] := by intro c hc; simp at hc; rcases hc with rfl | rfl <;> simp
example : ∀ c ∈ ([['p'], ['q']] : Path), Plain c := by
  intro c hc; simp at hc; rcases hc with rfl | rfl <;> simp [Plain, dotdot]
/-- the hypotheses of `find_complete_partial` hold for the start `/p/q/r` -/
example : (∀ d', d' <+: absPath [] true [[], ['p'], ['q'], ['r']] → d' ≠ [] → ((fsOf exLay).ls d').isSome = true) ∧
    hasCandidate (fsOf exLay) "tasks".toList [['p'], ['q']] = true := by
  refine ⟨?_, by decide⟩
  intro d' h _
  have : absPath [] true [[], ['p'], ['q'], ['r']] = [['p'], ['q'], ['r']] := by decide
  rw [this] at h
  have hlen := h.length_le
  obtain ⟨t, ht⟩ := h
  match d', t, ht with
  | [], _, _ => decide
  | [a], t, ht => simp at ht; obtain ⟨rfl, _⟩ := ht; decide
  | [a, b], t, ht => simp at ht; obtain ⟨rfl, rfl, _⟩ := ht; decide
  | [a, b, c], t, ht => simp at ht; obtain ⟨rfl, rfl, rfl, _⟩ := ht; decide
  | _ :: _ :: _ :: _ :: _, _, _ => simp at hlen

end Inv.Loader
