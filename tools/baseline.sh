#!/bin/bash
# Run the repository's pinned baseline suite (guard OFF) in REPO (default /repo) and compare with
# /root/.vp/BASELINE.json stable_pass.  Exit 0 iff every stable-pass test still passes.
REPO=${1:-/repo}
OUT=$(mktemp -d /tmp/baseline.XXXXXX)
cd "$REPO" || exit 2
env -u PYINVOKE_INVOKE_VERIF PYTHONPATH="$REPO" /venv/bin/python -m pytest -q -p no:cacheprovider --timeout=900 \
   --continue-on-collection-errors --junitxml="$OUT/junit.xml" >"$OUT/pytest.out" 2>&1
python3 - "$OUT/junit.xml" <<'PY'
import json, sys, xml.etree.ElementTree as ET
b=json.load(open('/root/.vp/BASELINE.json')); stable=set(b['stable_pass'])
t=ET.parse(sys.argv[1]); passed=set(); failed=set()
for tc in t.iter('testcase'):
    name=tc.get('classname')+'::'+tc.get('name')
    bad=any(ch.tag in('failure','error') for ch in tc)
    skipped=any(ch.tag=='skipped' for ch in tc)
    if bad: failed.add(name)
    elif not skipped: passed.add(name)
missing=sorted(stable-passed)
print('passed',len(passed),'failed',len(failed),'stable_pass',len(stable),'stable now failing',len(missing), missing[:10])
sys.exit(1 if missing else 0)
PY
rc=$?
rm -rf "$OUT"
exit $rc
