"""Area extractors; each module registers `@area("Name")` functions."""
import importlib
import os
import pkgutil

for m in pkgutil.iter_modules([os.path.dirname(__file__)]):
    importlib.import_module("extractors." + m.name)
