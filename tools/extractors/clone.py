"""Area "Clone": the data slots `Config.clone()` carries over, found by BEHAVIOURAL PROBING.

For each of the ten data slots of a configuration (eight levels, the modification journal, the
deletion marks) a fresh real `Config` gets a distinctive setting into exactly that slot through the
public interface (constructor arguments, load_* methods, real JSON files, os.environ, item
assignment / deletion), the backing file or environment variable is removed again, the object is
cloned, and the clone is READ.  A slot is listed iff the clone still shows the setting.  No source
text is matched and no private attribute is touched, so renaming `_deletions` or rewriting `clone`
differently keeps the table as long as the behaviour is kept.
"""
import json
import os
import shutil
import tempfile

from extract import area, lean_list, Mismatch

SLOTS = ["defaults", "collection", "system", "user", "project", "env", "runtime", "overrides",
         "modifications", "deletions"]


def _write(path, data):
    os.makedirs(os.path.dirname(path), exist_ok=True)
    with open(path, "w") as f:
        json.dump(data, f)


def probe_slot(slot, tmp):
    """True iff a clone of a config whose `slot` holds a distinctive setting still reads it."""
    from invoke.config import Config
    midfix = Config.file_prefix or Config.prefix
    envp = (Config.env_prefix or Config.prefix).upper() + "_"
    sysp, usrp = os.path.join(tmp, "sys", ""), os.path.join(tmp, "usr", "")
    kw = dict(system_prefix=sysp, user_prefix=usrp, lazy=True)
    key = "probe" + slot
    absent = False
    if slot == "defaults":
        c = Config(defaults={key: 1}, **kw)
    elif slot == "overrides":
        c = Config(defaults={}, overrides={key: 1}, **kw)
    elif slot == "collection":
        c = Config(defaults={}, **kw)
        c.load_collection({key: 1})
    elif slot in ("system", "user"):
        path = (sysp if slot == "system" else usrp) + midfix + ".json"
        _write(path, {key: 1})
        c = Config(defaults={}, system_prefix=sysp, user_prefix=usrp, lazy=False)
        os.remove(path)
    elif slot == "project":
        path = os.path.join(tmp, "proj", midfix + ".json")
        _write(path, {key: 1})
        c = Config(defaults={}, project_location=os.path.join(tmp, "proj"), **kw)
        c.load_project()
        os.remove(path)
    elif slot == "runtime":
        path = os.path.join(tmp, "rt.json")
        _write(path, {key: 1})
        c = Config(defaults={}, runtime_path=path, **kw)
        c.load_runtime()
        os.remove(path)
    elif slot == "env":
        c = Config(defaults={key: 0}, **kw)
        var = envp + key.upper()
        old = os.environ.get(var)
        os.environ[var] = "1"
        try:
            c.load_shell_env()
        finally:
            if old is None:
                del os.environ[var]
            else:
                os.environ[var] = old
    elif slot == "modifications":
        c = Config(defaults={}, **kw)
        c[key] = 1
    elif slot == "deletions":
        c = Config(defaults={key: 1}, **kw)
        del c[key]
        absent = True
    else:
        raise Mismatch("unknown slot " + slot)
    # the original must show the setting (otherwise the probe itself is wrong)
    if absent:
        if key in c:
            raise Mismatch("probe for %s did not take effect on the original" % slot)
    elif key not in c or c[key] != 1:
        raise Mismatch("probe for %s did not take effect on the original" % slot)
    k = c.clone()
    if absent:
        return key not in k
    return key in k and k[key] == 1


def probe_all():
    tmp = tempfile.mkdtemp(prefix="verif-clone-")
    try:
        return [s for s in SLOTS if probe_slot(s, tmp)]
    finally:
        shutil.rmtree(tmp, ignore_errors=True)


@area("Clone")
def clone_area():
    try:
        carried = probe_all()
    except Mismatch:
        raise
    except Exception as e:  # the probe could not be carried out on this tree
        raise Mismatch("clone probing failed: %r" % (e,))
    return ("/-- names of the data slots a clone of a real `Config` was observed to carry over\n"
            "    (probed behaviourally by tools/extractors/clone.py) -/\n"
            "def cloneSlots : List String := " + lean_list(carried))
