"""Areas "Config" and "Env": tables of invoke/config.py and invoke/env.py obtained by BEHAVIOURAL PROBING
of the real classes (a refactoring that keeps the behaviour keeps the tables).

Config:
  mergeOrder   - the nine configuration levels, lowest precedence first.  Each level is given a distinct value at
                 one key through the public API (constructor arguments, load_* methods, real temp files, a patched
                 os.environ, an attribute write) and precedence is read off pairwise; a level that is not visible
                 even when it is the only one defining the key is left out (so a dropped merge step breaks
                 `generated_order_documented`).
  fileSuffixes - the suffixes tried for a file-backed level, first tried first: candidates = the class' own
                 suffix attribute (when it still exists) plus the documented four; each candidate is probed alone
                 with a real file (must load) and pairwise (which of two existing files is read).
Env:
  envCastOrder - the effective branch order of the env-value cast: the special branches (bool, str, none, seq)
                 that behave as documented come first, then the fallback `other` (= old.__class__(new)), then
                 the special branches that are shadowed by the fallback.
  envCastTable - the observed behaviour class per leaf type (informational, also pinned by a theorem).
"""
import json
import os
import shutil
import tempfile
from contextlib import contextmanager

from extract import area, lean_list, lean_str, Mismatch

LEVELS = ["defaults", "collection", "system", "user", "project", "env", "runtime", "overrides", "modifications"]
DOC_SUFFIXES = ["yaml", "yml", "json", "py"]
KEY = "probe"


@contextmanager
def _environ(extra):
    old = dict(os.environ)
    try:
        for k in list(os.environ):
            if k.startswith("INVOKE_"):
                del os.environ[k]
        os.environ.update(extra)
        yield
    finally:
        os.environ.clear()
        os.environ.update(old)


def _write(path, suffix, data):
    if suffix in ("yaml", "yml"):
        from invoke.vendor import yaml
        with open(path, "w") as f:
            f.write(yaml.safe_dump(data))
    elif suffix == "json":
        with open(path, "w") as f:
            json.dump(data, f)
    else:
        with open(path, "w") as f:
            f.write("".join("%s = %r\n" % kv for kv in data.items()))


def _probe_levels(values, root):
    """values: {level: str}.  Builds a real Config where exactly those levels define KEY; returns the visible value."""
    from invoke.config import Config
    for d in ("sys", "user", "proj"):
        os.makedirs(os.path.join(root, d), exist_ok=True)
        for f in os.listdir(os.path.join(root, d)):
            os.unlink(os.path.join(root, d, f))
    files = {"system": os.path.join(root, "sys", "invoke.json"), "user": os.path.join(root, "user", ".invoke.json"),
             "project": os.path.join(root, "proj", "invoke.json"), "runtime": os.path.join(root, "rt.json")}
    if os.path.exists(files["runtime"]):
        os.unlink(files["runtime"])
    for lvl, path in files.items():
        if lvl in values:
            _write(path, "json", {KEY: values[lvl]})
    env = {"INVOKE_" + KEY.upper(): values["env"]} if "env" in values else {}
    with _environ(env):
        c = Config(defaults={KEY: values["defaults"]} if "defaults" in values else {},
                   system_prefix=os.path.join(root, "sys", ""), user_prefix=os.path.join(root, "user", "."), lazy=True)
        if "collection" in values:
            c.load_collection({KEY: values["collection"]})
        c.load_system()
        c.load_user()
        c.set_project_location(os.path.join(root, "proj"))
        c.load_project()
        if "runtime" in values:
            c.set_runtime_path(files["runtime"])
            c.load_runtime()
        if "overrides" in values:
            c.load_overrides({KEY: values["overrides"]})
        c.load_shell_env()
        if "modifications" in values:
            setattr(c, KEY, values["modifications"])
        return c[KEY] if KEY in c else None


def merge_order():
    root = tempfile.mkdtemp(prefix="verif_cfgprobe_")
    try:
        visible = []
        for lvl in LEVELS:
            vals = {lvl: "v-" + lvl}
            if lvl == "env":  # the environment only overrides existing settings: give it one to override
                vals["defaults"] = "v-defaults"
            if _probe_levels(vals, root) == "v-" + lvl:
                visible.append(lvl)
        wins = {l: 0 for l in visible}
        beats = set()
        for i, a in enumerate(visible):
            for b in visible[i + 1:]:
                vals = {a: "v-" + a, b: "v-" + b}  # (when one of them is env, the setting exists through the other)
                got = _probe_levels(vals, root)
                if got == "v-" + a:
                    wins[a] += 1
                    beats.add((a, b))
                elif got == "v-" + b:
                    wins[b] += 1
                    beats.add((b, a))
                else:
                    raise Mismatch("levels %s and %s both set, visible value is %r" % (a, b, got))
        order = sorted(visible, key=lambda l: wins[l])
        for i, a in enumerate(order):
            for b in order[i + 1:]:
                if (b, a) not in beats:
                    raise Mismatch("precedence between config levels is not a total order (%s vs %s)" % (a, b))
        return order
    finally:
        shutil.rmtree(root, ignore_errors=True)


def _probe_suffixes(present, root):
    """present: list of suffixes for which a project file exists; returns the suffix whose file was read (or None)."""
    from invoke.config import Config
    d = os.path.join(root, "sfx")
    shutil.rmtree(d, ignore_errors=True)
    os.makedirs(d)
    for s in present:
        _write(os.path.join(d, "invoke." + s), s, {KEY: "from-" + s})
    with _environ({}):
        c = Config(defaults={}, system_prefix=os.path.join(root, "nosys", ""), user_prefix=os.path.join(root, "nouser", "."),
                   project_location=d)
        try:
            c.load_project()
        except Exception:
            return None
        got = c[KEY] if KEY in c else None
    return got[5:] if isinstance(got, str) and got.startswith("from-") else None


def file_suffixes():
    from invoke.config import Config
    root = tempfile.mkdtemp(prefix="verif_sfxprobe_")
    try:
        cands = []
        try:
            with _environ({}):
                attr = Config(defaults={}, lazy=True)._file_suffixes
            cands += [str(x) for x in attr]
        except Exception:
            attr = None
        for s in DOC_SUFFIXES:
            if s not in cands:
                cands.append(s)
        usable = [s for s in cands if _probe_suffixes([s], root) == s]
        wins = {s: 0 for s in usable}
        for i, a in enumerate(usable):
            for b in usable[i + 1:]:
                got = _probe_suffixes([a, b], root)
                if got not in (a, b):
                    raise Mismatch("files with suffixes %s and %s exist, neither was read" % (a, b))
                wins[got] += 1
        order = sorted(usable, key=lambda s: -wins[s])
        if sorted(wins.values()) != list(range(len(usable))):
            raise Mismatch("suffix preference is not a total order: %r" % wins)
        return order, (list(attr) if attr is not None else None)
    finally:
        shutil.rmtree(root, ignore_errors=True)


@area("Config")
def config_area():
    order = merge_order()
    sfx, attr = file_suffixes()
    out = ["/-- configuration levels in merge order (lowest precedence first), probed pairwise on the real `Config` -/",
           "def mergeOrder : List String := " + lean_list(order), "",
           "/-- file suffixes in the order tried (first existing one is read), probed with real files -/",
           "def fileSuffixes : List String := " + lean_list(sfx), "",
           "/-- the suffix attribute of a fresh `Config` (`[]` when the attribute no longer exists) -/",
           "def fileSuffixesAttr : List String := " + lean_list([str(x) for x in (attr or [])])]
    return "\n".join(out)


# ----------------------------------------------------------------------------------------------- Env

def _cast_probe(old, new):
    """Result of overriding a setting whose current value is `old` by the environment string `new`, through the
    public path (Config + load_shell_env); falls back to Environment._cast.  Returns ('ok', value) | ('err', class)."""
    from invoke.config import Config
    try:
        with _environ({"INVOKE_" + KEY.upper(): new}):
            c = Config(defaults={KEY: old}, lazy=True)
            c.load_shell_env()
            return ("ok", c[KEY])
    except Exception as e:
        return ("err", type(e).__name__)


SAMPLES = ["", "0", "1", "x", "42", "false"]


def _behaviour(old):
    res = [_cast_probe(old, s) for s in SAMPLES]

    def same(r, kind, v=None):
        return r[0] == kind and (v is None or (r[1] == v and type(r[1]) is type(v)))
    if all(same(r, "ok", s not in ("0", "")) for r, s in zip(res, SAMPLES)):
        return "falseOnlyForEmptyOrZero"
    if all(same(r, "ok", s) for r, s in zip(res, SAMPLES)):
        return "verbatim"
    if all(r == ("err", "UncastableEnvVar") for r in res):
        return "uncastable"
    cls = old.__class__

    def call(s):
        try:
            return ("ok", cls(s))
        except Exception as e:
            return ("err", type(e).__name__)
    if all((r[0] == "err" and call(s)[0] == "err") or (r == call(s) and type(r[1]) is cls) for r, s in zip(res, SAMPLES)):
        return "classCall"
    return "other:" + repr(res)


def cast_table():
    return [("bool", _behaviour(True)), ("str", _behaviour("s")), ("none", _behaviour(None)),
            ("list", _behaviour([1])), ("tuple", _behaviour((1,))), ("int", _behaviour(7)), ("float", _behaviour(1.5))]


DOCUMENTED = {"bool": "falseOnlyForEmptyOrZero", "str": "verbatim", "none": "verbatim", "list": "uncastable",
              "tuple": "uncastable"}


def cast_order(table):
    t = dict(table)
    special = [("bool", ["bool"]), ("str", ["str"]), ("none", ["none"]), ("seq", ["list", "tuple"])]
    eff, shadowed = [], []
    for tag, kinds in special:
        if all(t[k] == DOCUMENTED[k] for k in kinds):
            eff.append(tag)
        elif all(t[k] == "classCall" for k in kinds):
            shadowed.append(tag)
        else:
            raise Mismatch("environment cast of a %s setting behaves like neither the documented rule nor the "
                           "class-call fallback: %r" % (tag, [t[k] for k in kinds]))
    if t["int"] != "classCall" or t["float"] != "classCall":
        raise Mismatch("environment cast of numeric settings is not type(old)(new): %r / %r" % (t["int"], t["float"]))
    return eff + ["other"] + shadowed


@area("Env")
def env_area():
    table = cast_table()
    order = cast_order(table)
    pair = lambda kv: "(%s, %s)" % (lean_str(kv[0]), lean_str(kv[1]))  # noqa: E731
    return "\n".join([
        "/-- effective branch order of the environment-value cast (first applicable branch is taken), probed on the",
        "    real `Config.load_shell_env` with typed defaults -/",
        "def envCastOrder : List String := " + lean_list(order), "",
        "/-- observed behaviour per type of the overridden setting -/",
        "def envCastTable : List (String × String) := " + lean_list(table, pair)])
