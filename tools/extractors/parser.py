"""Areas "Parser" and "Program": tables of the argv state machine and of the core arguments.

Everything is read off the REAL objects of the working tree at run time:
  * the fluidity state / transition declarations of `ParseMachine` (class attributes filled by the metaclass),
  * the dispatch precedence of `ParseMachine.handle`, obtained by BEHAVIOURAL probing through the public
    `Parser.parse_argv` (a token that qualifies for two branches at once, look at who got it) - so a
    harmless rewrite of `handle` keeps the table while a reordering of two branches changes it,
  * the core argument table from `Program(...).initial_context`.
"""
from extract import area, lean_str, lean_list, Mismatch


def _b(x):
    return "true" if x else "false"


def _opt(x):
    return "none" if x is None else "(some %s)" % lean_str(x)


def _listize(x):
    if x is None:
        return []
    if isinstance(x, (list, tuple)):
        return [getattr(i, "__name__", i) for i in x]
    return [getattr(x, "__name__", x)]


def machine_tables():
    from invoke.parser.parser import ParseMachine
    states = getattr(ParseMachine, "_class_states", None)
    trans = getattr(ParseMachine, "_class_transitions", None)
    if states is None or trans is None:
        raise Mismatch("ParseMachine no longer exposes fluidity class tables")
    st = [(s.name, _listize(s.enter), _listize(s.exit)) for s in states.values()]
    tr = [(t.event, [s.name for s in t.from_], t.to.name, _listize(t.action), _listize(t.guard.action)) for t in trans]
    init = ParseMachine.initial_state
    if callable(init):
        init = init()
    return init, st, sorted(tr)


def dispatch_probes():
    """Pairwise precedence of the branches of ParseMachine.handle, observed on results of the real parser.
    Returns the list of (winner, loser) facts that hold."""
    from invoke.parser import Parser, ParserContext, Argument
    from invoke.exceptions import ParseError

    def run(contexts, initial, argv):
        try:
            r = Parser(contexts=contexts, initial=initial).parse_argv(list(argv))
            return [(c.name, dict((a.name, a.value) for a in c.args.values())) for c in r]
        except ParseError:
            return "ParseError"

    def core():
        return ParserContext(args=[Argument(names=("echo", "e"), kind=bool, default=False),
                                   Argument(names=("help", "h"), optional=True)])

    facts = []
    # flag > pending value: `t --name --flag`  (value would make name='--flag')
    r = run([ParserContext(name="t", args=[Argument(names=("name",)), Argument(names=("flag",), kind=bool, default=False)])],
            core(), ["t", "--name", "--flag"])
    facts.append(("flag", "value") if r == "ParseError" else ("value", "flag"))
    # inverse > pending value: `t --name --no-b`
    r = run([ParserContext(name="t", args=[Argument(names=("name",)), Argument(names=("b",), kind=bool, default=True)])],
            core(), ["t", "--name", "--no-b"])
    facts.append(("inverse", "value") if r == "ParseError" else ("value", "inverse"))
    # flag > positional: `t --flag` with a missing positional must not make pos='--flag'
    r = run([ParserContext(name="t", args=[Argument(names=("pos",), positional=True), Argument(names=("flag",), kind=bool, default=False)])],
            core(), ["t", "--flag", "x"])
    facts.append(("flag", "positional") if r != "ParseError" and r[-1][1] == {"pos": "x", "flag": True} else ("positional", "flag"))
    # pending value > positional: `t --name x y`
    r = run([ParserContext(name="t", args=[Argument(names=("pos",), positional=True), Argument(names=("name",))])],
            core(), ["t", "--name", "x", "y"])
    facts.append(("value", "positional") if r != "ParseError" and r[-1][1] == {"pos": "y", "name": "x"} else ("positional", "value"))
    # positional > context: `t u` where u is a task name
    r = run([ParserContext(name="t", args=[Argument(names=("pos",), positional=True)]), ParserContext(name="u")],
            core(), ["t", "u"])
    facts.append(("positional", "context") if r != "ParseError" and len(r) == 2 and r[-1][1] == {"pos": "u"} else ("context", "positional"))
    # core flag is NOT eaten as a positional: `t -e x`
    r = run([ParserContext(name="t", args=[Argument(names=("pos",), positional=True)])], core(), ["t", "-e", "x"])
    facts.append(("coreflag", "positional") if r != "ParseError" and r[0][1].get("echo") is True and r[-1][1] == {"pos": "x"}
                 else ("positional", "coreflag"))
    # context > core flag: a context literally named like a core flag
    r = run([ParserContext(name="t"), ParserContext(name="-e")], core(), ["t", "-e"])
    facts.append(("context", "coreflag") if r != "ParseError" and len(r) == 3 and r[0][1].get("echo") is False else ("coreflag", "context"))
    # pending value > context: `t --name u`
    r = run([ParserContext(name="t", args=[Argument(names=("name",))]), ParserContext(name="u")], core(), ["t", "--name", "u"])
    facts.append(("value", "context") if r != "ParseError" and len(r) == 2 and r[-1][1] == {"name": "u"} else ("context", "value"))
    # pending value > core flag: `t --name -e`
    r = run([ParserContext(name="t", args=[Argument(names=("name",))])], core(), ["t", "--name", "-e"])
    facts.append(("value", "coreflag") if r != "ParseError" and r[0][1].get("echo") is False and r[-1][1] == {"name": "-e"}
                 else ("coreflag", "value"))
    # core flag > unknown: `t -e` parses; unknown raises
    r = run([ParserContext(name="t")], core(), ["t", "-e"])
    facts.append(("coreflag", "unknown") if r != "ParseError" else ("unknown", "coreflag"))
    # task flag shadows the core flag of the same spelling
    r = run([ParserContext(name="t", args=[Argument(names=("echo", "e"), kind=bool, default=False)])], core(), ["t", "-e"])
    facts.append(("flag", "coreflag") if r != "ParseError" and r[0][1].get("echo") is False and r[-1][1] == {"echo": True}
                 else ("coreflag", "flag"))
    return facts


def total_order(facts):
    """linear extension of the observed precedence facts, None when they are cyclic/ambiguous"""
    names = ["flag", "inverse", "value", "positional", "context", "coreflag", "unknown"]
    order, rest = [], list(names)
    # the probes leave flag/inverse and coreflag>positional (a guard, not a position) aside
    prec = [(a, b) for a, b in facts if not (a == "coreflag" and b == "positional")]
    while rest:
        mins = [x for x in rest if not any(b == x and a in rest for a, b in prec)]
        if not mins:
            return None
        pick = [x for x in names if x in mins][0]
        order.append(pick)
        rest.remove(pick)
    return order


@area("Parser")
def parser_area():
    init, st, tr = machine_tables()
    facts = dispatch_probes()
    order = total_order(facts)
    if order is None:
        raise Mismatch("handle dispatch probes are cyclic: %r" % (facts,))
    out = []
    out.append("/-- ParseMachine.initial_state -/\n" "def machineInitial : String := %s" % lean_str(init))
    out.append("/-- fluidity states of ParseMachine: (name, enter actions, exit actions) -/\n" "def machineStates : List (String × List String × List String) :=\n  [" + ",\n   ".join(
        "(%s, %s, %s)" % (lean_str(n), lean_list(e), lean_list(x)) for n, e, x in st) + "]")
    out.append("/-- fluidity transitions: (event, from-states, to-state, actions, guards) -/\n" "def machineTransitions : List (String × List String × String × List String × List String) :=\n  [" + ",\n   ".join(
        "(%s, %s, %s, %s, %s)" % (lean_str(e), lean_list(f), lean_str(t), lean_list(a), lean_list(g)) for e, f, t, a, g in tr) + "]")
    out.append("/-- precedence facts (winner, loser) of ParseMachine.handle observed by probing Parser.parse_argv -/\n" "def handleFacts : List (String × String) :=\n  [" + ", ".join("(%s, %s)" % (lean_str(a), lean_str(b)) for a, b in facts) + "]")
    out.append("/-- dispatch order of ParseMachine.handle (linear extension of `handleFacts`) -/\n" "def handleDispatch : List String := %s" % lean_list(order))
    return "\n\n".join(out)


def _default(d):
    if d is None:
        return "none"
    if isinstance(d, bool):
        return "b:%d" % d
    if isinstance(d, int):
        return "i:%d" % d
    if isinstance(d, str):
        return "s:" + d
    if isinstance(d, list):
        return "l"
    raise Mismatch("core argument default of unmodelled type: %r" % (d,))


def _arg_row(a):
    kind = getattr(a.kind, "__name__", str(a.kind))
    if kind not in ("str", "int", "bool", "list"):
        raise Mismatch("core argument kind outside the model: %r" % (a.kind,))
    return "(%s, %s, %s, %s, %s, %s)" % (lean_list(list(a.names)), lean_str(kind), lean_str(_default(a.default)),
                                         _b(a.positional), _b(a.optional), _b(a.incrementable))


@area("Program")
def program_area():
    from invoke import Program, Collection
    bundled = Program(namespace=Collection()).initial_context
    runner = Program().initial_context
    core = list(bundled.args.values())
    extra = [a for a in runner.args.values() if a.names[0] not in bundled.args]
    out = []
    out.append("/-- Program(namespace=…).initial_context: (names, kind, default, positional, optional, incrementable) -/\n" "def coreArgs : List (List String × String × String × Bool × Bool × Bool) :=\n  [" + ",\n   ".join(_arg_row(a) for a in core) + "]")
    out.append("/-- the additional task-runner arguments of Program().initial_context -/\n" "def taskRunnerArgs : List (List String × String × String × Bool × Bool × Bool) :=\n  [" + ",\n   ".join(_arg_row(a) for a in extra) + "]")
    return "\n\n".join(out)
