"""Area "Runner": tables for C05 (exit status, return vs raise, program exit code) and C15 (run options).

Everything is obtained by BEHAVIOURAL PROBING / import-time introspection of the code in the working tree:

* `finishRaiseOrder`, `finishProbe`  - the real `Runner._finish` is driven through all 2^5 combinations of
  {worker-thread exception, watcher error, timeout fired, non-zero exit, warn}; the winner of every
  combination is recorded, and the priority order is derived by successive elimination.
* `runOptionKeys`, `runDefaults`, `timeoutDefault` - `Config.global_defaults()`.
* `hideVocabulary`, `hideProbe` - `normalize_hide` probed on a candidate list x stream overrides.
* `exitCodeMap`, `exitCodeProbe`, `exitObjProbe` - `Program.run` probed with task bodies raising
  `Exit(..)`, `UnexpectedExit(result)`, a parse error, or nothing; `Exit(message, code).code`.

The generated file is self-contained (it declares the small enums it uses) because generated files
cannot import model files.
"""
import contextlib
import io
import itertools
import os

from extract import area, Mismatch


def lean_str(s):
    out = []
    for ch in s:
        if ch in '"\\':
            out.append("\\" + ch)
        elif ch == "\n":
            out.append("\\n")
        elif ord(ch) < 32 or ord(ch) == 127:
            out.append("\\x%02x" % ord(ch))
        else:
            out.append(ch)
    return '"' + "".join(out) + '"'

TYPES = '''\
/-- failure causes examined by `Runner._finish` -/
inductive Cause | thread | watcher | timeout | exit
  deriving DecidableEq, Repr

/-- what `_finish` did -/
inductive FinKind | threadException | failure | commandTimedOut | unexpectedExit | returned
  deriving DecidableEq, Repr

/-- value universe of run options: None | False | True | an integer | a string | a stream object | a mapping | a list of n items -/
inductive RV
  | none | false | true
  | int (i : Int)
  | str (s : String)
  | stream (id : Nat)
  | mapping (kvs : List (String × String))
  | list (n : Nat)
  deriving DecidableEq, Repr

/-- how `Program.run` ended -/
inductive ProgKind | success | unexpectedExit | exit | parseError
  deriving DecidableEq, Repr

/-- exit-status rule: a constant, or the code carried by the exception (`result.exited` / `Exit.code`) -/
inductive ExitRule | const (n : Int) | carried
  deriving DecidableEq, Repr
'''


def lb(b):
    return "true" if b else "false"


def lint(n):
    return "(%d)" % n if n < 0 else "%d" % n


def lopt(x, f):
    return "none" if x is None else "(some %s)" % f(x)


# --------------------------------------------------------------------------- _finish probing

def _probe_finish():
    from invoke import Context, Config
    from invoke.runners import Runner
    from invoke.exceptions import (ThreadException, Failure, CommandTimedOut, UnexpectedExit, WatcherError)
    from invoke.watchers import StreamWatcher

    class FakeTimer:
        def __init__(self, fired):
            self.fired = fired

        def is_alive(self):
            return not self.fired

        def cancel(self):
            pass

    class Angry(StreamWatcher):
        def submit(self, stream):
            raise WatcherError("probe")

    class Boom(Exception):
        pass

    class BadIn:
        def read(self, n):
            raise Boom("probe")

    class P(Runner):
        input_sleep = 0.0005

        def __init__(self, code, fired):
            super().__init__(Context(Config(lazy=True)))
            self._chunks = [b"x"]
            self._code = code
            self._fired = fired

        def should_use_pty(self, pty=False, fallback=True):
            return False

        def start(self, command, shell, env):
            pass

        def start_timer(self, timeout):
            if timeout is not None:
                self._timer = FakeTimer(self._fired)

        def read_proc_stdout(self, n):
            return self._chunks.pop(0) if self._chunks else None

        def read_proc_stderr(self, n):
            return None

        def _write_proc_stdin(self, data):
            pass

        def close_proc_stdin(self):
            pass

        @property
        def process_is_finished(self):
            return True

        def returncode(self):
            return self._code

        def kill(self):
            pass

    rows = []
    for th, wa, to, nz, warn in itertools.product([False, True], repeat=5):
        r = P(7 if nz else 0, to)
        kw = dict(hide=True, warn=warn, encoding="utf-8", timeout=5,
                  in_stream=BadIn() if th else False, watchers=[Angry()] if wa else [])
        try:
            res = r.run("probe", **kw)
            kind, exited = "returned", res.exited
        except ThreadException:
            kind, exited = "threadException", 0
        except CommandTimedOut as e:
            kind, exited = "commandTimedOut", e.result.exited
        except UnexpectedExit as e:
            kind, exited = "unexpectedExit", e.result.exited
        except Failure as e:
            kind, exited = "failure", e.result.exited
        rows.append(((th, wa, to, nz, warn), (kind, exited is None)))
    return rows


def _derive_order(rows):
    """successive elimination: with every remaining cause firing (warn off), who wins?"""
    table = dict(rows)
    kind_cause = {"threadException": "thread", "failure": "watcher", "commandTimedOut": "timeout", "unexpectedExit": "exit"}
    remaining = ["thread", "watcher", "timeout", "exit"]
    order = []
    while remaining:
        key = tuple(c in remaining for c in ("thread", "watcher", "timeout", "exit")) + (False,)
        kind = table[key][0]
        cause = kind_cause.get(kind)
        if cause is None or cause not in remaining:
            raise Mismatch("Runner._finish: with causes %s firing the outcome is %s" % (remaining, kind))
        order.append(cause)
        remaining.remove(cause)
    return order


# --------------------------------------------------------------------------- values

def enc_rv(v):
    if v is None:
        return ".none"
    if v is False:
        return ".false"
    if v is True:
        return ".true"
    if isinstance(v, int):
        return "(.int %s)" % lint(v)
    if isinstance(v, str):
        return "(.str %s)" % lean_str(v)
    if isinstance(v, dict):
        return "(.mapping [%s])" % ", ".join("(%s, %s)" % (lean_str(str(k)), lean_str(str(x))) for k, x in v.items())
    if isinstance(v, (list, tuple)):
        return "(.list %d)" % len(v)
    raise Mismatch("run option default outside the value universe: %r" % (v,))


HIDE_CANDIDATES = [None, False, True, "out", "stdout", "err", "stderr", "both", "all", "none", "in", "stdin", ""]


def _probe_hide():
    from invoke.runners import normalize_hide
    rows, vocab = [], []
    for v in HIDE_CANDIDATES:
        for og, eg in itertools.product([False, True], repeat=2):
            try:
                got = list(normalize_hide(v, object() if og else None, object() if eg else None))
            except ValueError:
                got = None
            rows.append((v, og, eg, got))
            if got is not None and not og and not eg and v not in vocab:
                vocab.append(v)
    return vocab, rows


# --------------------------------------------------------------------------- Program.run probing

def _program_exit(body):
    """SystemExit.code produced by Program.run for a task body (None = returned normally)."""
    from invoke import Program, Collection, task

    @task
    def probe(c):
        body()

    p = Program(namespace=Collection(probe))
    sink = io.StringIO()
    with contextlib.redirect_stderr(sink), contextlib.redirect_stdout(sink):
        try:
            p.run(["inv", "probe"], exit=True)
        except SystemExit as e:
            return ("exit", e.code)
    return ("returned", None)


def _probe_program():
    from invoke import Program, Collection, task, Exit
    from invoke.runners import Result
    from invoke.exceptions import UnexpectedExit

    def raiser(e):
        def f():
            raise e
        return f

    rows = []  # (kind, carried, observed)   observed None = no SystemExit
    rows.append(("success", None, _program_exit(lambda: None)))
    for n in (1, 2, 7, 127, 255, -9, -15):
        rows.append(("unexpectedExit", n, _program_exit(raiser(UnexpectedExit(Result(command="x", exited=n, hide=()))))))
    for n in (0, 1, 3, 64, 255):
        rows.append(("exit", n, _program_exit(raiser(Exit(code=n)))))

    @task
    def probe(c):
        pass

    for argv in (["inv", "nosuchtask"], ["inv", "--no-such-core-flag"], ["inv", "probe", "--bogus"]):
        p = Program(namespace=Collection(probe))
        sink = io.StringIO()
        with contextlib.redirect_stderr(sink), contextlib.redirect_stdout(sink):
            try:
                p.run(argv, exit=True)
                obs = ("returned", None)
            except SystemExit as e:
                obs = ("exit", e.code)
        rows.append(("parseError", None, obs))
    out = []
    for kind, carried, (how, code) in rows:
        if how == "exit" and code is not None and not isinstance(code, int):
            raise Mismatch("Program.run exits with a non-integer code %r for %s" % (code, kind))
        out.append((kind, carried, None if how == "returned" else (code or 0)))
    # classify
    rules = []
    for kind in ("success", "unexpectedExit", "exit", "parseError"):
        mine = [(c, o) for k, c, o in out if k == kind]
        obs = [0 if o is None else o for _, o in mine]
        if all(c is not None and o == c for (c, _), o in zip(mine, obs)):
            rules.append((kind, ".carried"))
        elif len(set(obs)) == 1:
            rules.append((kind, "(.const %s)" % lint(obs[0])))
        else:
            raise Mismatch("Program.run exit status for %s is neither constant nor the carried code: %r" % (kind, mine))
    # Exit(message, code).code
    objrows = []
    for code in (None, 0, 2, 77):
        for msg in (None, "", "m"):
            objrows.append((code, bool(msg), Exit(msg, code).code))
    return rules, out, objrows


# --------------------------------------------------------------------------- area

@area("Runner")
def runner_area():
    from invoke.config import Config
    rows = _probe_finish()
    order = _derive_order(rows)
    gd = Config.global_defaults()
    run = gd["run"]
    vocab, hrows = _probe_hide()
    rules, prows, objrows = _probe_program()
    L = [TYPES]
    L.append("/-- priority of the failure causes in `Runner._finish`, derived from the probed table below -/")
    L.append("def finishRaiseOrder : List Cause := [%s]\n" % ", ".join("." + c for c in order))
    L.append("/-- probed: (thread exception, watcher error, timeout fired, non-zero exit, warn) ↦ (outcome, result.exited is None) -/")
    L.append("def finishProbe : List ((Bool × Bool × Bool × Bool × Bool) × (FinKind × Bool)) := [")
    L.append(",\n".join("  ((%s), (.%s, %s))" % (", ".join(lb(b) for b in k), v[0], lb(v[1])) for k, v in rows))
    L.append("]\n")
    L.append("/-- keys of `Config.global_defaults()['run']`, in order -/")
    L.append("def runOptionKeys : List String := [%s]\n" % ", ".join(lean_str(k) for k in run))
    L.append("def runDefaults : List (String × RV) := [")
    L.append(",\n".join("  (%s, %s)" % (lean_str(k), enc_rv(v)) for k, v in run.items()))
    L.append("]\n")
    L.append("/-- `timeouts.command` default -/")
    L.append("def timeoutDefault : RV := %s\n" % enc_rv(gd["timeouts"]["command"]))
    L.append("/-- `sudo` defaults: prompt, user, password -/")
    L.append("def sudoPromptDefault : String := %s" % lean_str(gd["sudo"]["prompt"]))
    L.append("def sudoUserDefault : RV := %s" % enc_rv(gd["sudo"]["user"]))
    L.append("def sudoPasswordDefault : RV := %s\n" % enc_rv(gd["sudo"]["password"]))
    L.append("/-- values accepted by `normalize_hide` (from the candidate list probed) -/")
    L.append("def hideVocabulary : List RV := [%s]\n" % ", ".join(enc_rv(v) for v in vocab))
    L.append("/-- probed: (hide value, out_stream given, err_stream given) ↦ hidden streams (none = ValueError) -/")
    L.append("def hideProbe : List (RV × Bool × Bool × Option (List String)) := [")
    L.append(",\n".join("  (%s, %s, %s, %s)" % (enc_rv(v), lb(o), lb(e), lopt(g, lambda xs: "[%s]" % ", ".join(lean_str(x) for x in xs)))
                        for v, o, e, g in hrows))
    L.append("]\n")
    L.append("/-- exit status of `Program.run` per way of ending -/")
    L.append("def exitCodeMap : List (ProgKind × ExitRule) := [%s]\n" % ", ".join("(.%s, %s)" % r for r in rules))
    L.append("/-- probed: (kind, code carried by the exception, observed SystemExit.code; none = returned normally) -/")
    L.append("def exitCodeProbe : List (ProgKind × Option Int × Option Int) := [")
    L.append(",\n".join("  (.%s, %s, %s)" % (k, lopt(c, lint), lopt(o, lint)) for k, c, o in prows))
    L.append("]\n")
    L.append("/-- probed: `Exit(message, code).code` as (code given, message non-empty, .code) -/")
    L.append("def exitObjProbe : List (Option Int × Bool × Int) := [")
    L.append(",\n".join("  (%s, %s, %s)" % (lopt(c, lint), lb(m), lint(o)) for c, m, o in objrows))
    L.append("]")
    return "\n".join(L)
