"""Area "RunnerState": what a runner object carries from one run into the next.

The RunnerIO model (Model/RunnerIO.lean) starts EVERY run from `S.init`: no worker, codec, event, timer or option
state of an earlier run on the same object exists.  That is an assumption about the code (`Runner._run_body`,
`_setup`, `start_timer`, `create_io_threads`, `Local.start` must re-establish per-run state), and this table is
its tie: the real `Local` is driven through a set of state-dirtying first runs (timed out, failed, byte input
ending inside a character, a start-of-stream-marker encoding, a watcher that answered, a worker that died, an
asynchronous run, a pty run, ...), then through one standard second run, and the attribute dictionary of the object
is recorded at the moment the second run's workers are about to start.  Every attribute whose value differs from
what a FRESH object has at that same moment is a `carriedOver` row.  `Lemmas/RunnerReuse.lean` proves over the
regenerated table that every row is one of the inert leftovers listed there (attributes the second run's path never
reads).

Behavioural, not textual: a refactoring that renames or moves per-run state keeps the table as long as nothing
observable at worker start differs.
"""
import codecs
import io
import os
import subprocess
import sys
import threading

from extract import area, lean_list, lean_str


def _canon(name, v):
    if isinstance(v, threading.Event):
        return "Event(%s)" % ("set" if v.is_set() else "clear")
    if isinstance(v, (codecs.IncrementalDecoder, codecs.IncrementalEncoder)):
        kind = "decoder" if isinstance(v, codecs.IncrementalDecoder) else "encoder"
        return "%s(state=%r)" % (kind, v.getstate())
    if isinstance(v, subprocess.Popen):
        return "Popen"
    if isinstance(v, bool) or v is None or isinstance(v, (str, bytes, float)):
        return repr(v)
    if isinstance(v, int):
        return "<int>" if ("pid" in name or "fd" in name) else repr(v)
    if isinstance(v, (list, tuple)):
        return "[" + ", ".join(_canon(name, x) for x in v) + "]"
    if isinstance(v, dict):
        return "{" + ", ".join(sorted("%s: %s" % (_canon(name, k), _canon(name, x)) for k, x in v.items())) + "}"
    if callable(v) and hasattr(v, "__name__"):
        return v.__name__
    return type(v).__name__


def _probe():
    from invoke import Context, Config, Local
    from invoke.exceptions import Failure, CommandTimedOut, ThreadException
    from invoke.watchers import Responder

    class Probe(Local):
        snap = None

        def create_io_threads(self):
            got = super().create_io_threads()
            self.snap = None
            # the snapshot is taken when the first worker of this run is started
            for t in got[0].values():
                orig = t.start

                def start(orig=orig):
                    if self.snap is None:
                        self.snap = {k: _canon(k, v) for k, v in vars(self).items() if k != "snap"}
                    return orig()
                t.start = start
            return got

    class Boom(io.StringIO):
        def write(self, s):
            raise OSError("boom")

    std_kw = dict(hide=True, in_stream=False, encoding="utf-8", timeout=5)
    stds = {"plain": dict(std_kw, pty=False), "pty": dict(std_kw, pty=True)}
    quiet = dict(hide=True, in_stream=False)
    dirty = [
        ("normal", lambda r: r.run("echo hi; echo err >&2", **quiet)),
        ("timed_out", lambda r: r.run("sleep 5", timeout=0.2, **quiet)),
        ("failed", lambda r: r.run("exit 3", warn=True, **quiet)),
        ("failed_raising", lambda r: r.run("exit 3", **quiet)),
        ("bytes_stdin_pending", lambda r: r.run("cat", hide=True, in_stream=io.BytesIO("añ".encode("utf-16") + b"\xd8"),
                                                 encoding="utf-16", echo_stdin=False)),
        ("text_stdin_marker", lambda r: r.run("cat", hide=True, in_stream=io.StringIO("añ"), encoding="utf-16", echo_stdin=False)),
        ("watcher_answered", lambda r: r.run("printf 'go? '; read x; echo $x", watchers=[Responder("go\\? ", "y\n")], **quiet)),
        ("worker_died", lambda r: r.run("echo hi", out_stream=Boom(), in_stream=False)),
        ("async_joined", lambda r: r.run("echo hi", asynchronous=True, **quiet).join()),
        ("pty", lambda r: r.run("echo hi", pty=True, **quiet)),
        ("pty_failed", lambda r: r.run("exit 4", pty=True, warn=True, **quiet)),
        ("pty_timed_out", lambda r: r.run("sleep 5", pty=True, timeout=0.2, **quiet)),
        ("options", lambda r: r.run("echo $X", env={"X": "1"}, shell="/bin/sh", echo=True, echo_stdin=True, encoding="latin-1", **quiet)),
        ("dry", lambda r: r.run("echo hi", dry=True, **quiet)),
        ("broken_pipe", lambda r: r.run("true", hide=True, in_stream=io.StringIO("x" * 300), echo_stdin=False)),
    ]
    old = (sys.stdout, sys.stderr)
    # the pty path sets the window size from sys.stdout's terminal: give it a (never read, tiny-output) terminal
    master, slave = os.openpty()
    null = os.fdopen(slave, "w")
    sys.stdout, sys.stderr = null, null
    try:
        fresh, dirtied, rows = {}, [], []
        for sname, kw in stds.items():
            r = Probe(Context(Config()))
            r.run("true", **kw)
            fresh[sname] = r.snap
        for dname, f in dirty:
            for sname, kw in stds.items():
                r = Probe(Context(Config()))
                try:
                    f(r)
                except (Failure, CommandTimedOut, ThreadException):
                    pass
                after = {k: _canon(k, v) for k, v in vars(r).items() if k != "snap"}
                if sname == "plain":
                    for k in sorted(after):
                        if k in ("stdout", "stderr"):
                            continue  # how much was captured before a worker died / the kill landed is a matter of timing
                        if after[k] != fresh["plain"].get(k) and (dname, k) not in dirtied:
                            dirtied.append((dname, k))
                r.run("true", **kw)
                for k in sorted(set(r.snap) | set(fresh[sname])):
                    a, b = fresh[sname].get(k, "<absent>"), r.snap.get(k, "<absent>")
                    if a != b:
                        rows.append((dname, sname, k, a, b))
        # the inert leftovers, behaviourally: a second run that is KILLED by its timeout (the kill path reads
        # pid / process / status) must come out the same on a reused object as on a fresh one
        import time

        def overrun(r, pty):
            t0 = time.time()
            try:
                r.run("sleep 5", timeout=0.3, pty=pty, **quiet)
                return "returned"
            except CommandTimedOut as e:
                dt = time.time() - t0
                return "CommandTimedOut(exited=%r, within 3s=%r)" % (e.result.exited, dt < 3.0)
            except Exception as e:  # noqa
                return type(e).__name__

        outcomes = []
        for sname, pty in (("plain", False), ("pty", True)):
            want = overrun(Probe(Context(Config())), pty)
            for dname, f in dirty:
                if dname not in ("normal", "timed_out", "pty", "pty_failed", "pty_timed_out", "async_joined"):
                    continue
                r = Probe(Context(Config()))
                try:
                    f(r)
                except (Failure, CommandTimedOut, ThreadException):
                    pass
                outcomes.append((dname, sname, want, overrun(r, pty)))
    finally:
        sys.stdout, sys.stderr = old
        null.close()
        os.close(master)
    return [d for d, _ in dirty], sorted(fresh["plain"]), dirtied, rows, outcomes


@area("RunnerState")
def runner_state_area():
    dirty, attrs, dirtied, rows, outcomes = _probe()
    L = []
    L.append("/-- the state-dirtying first runs driven through the real `Local` -/")
    L.append("def dirtyScenarios : List String :=\n  " + lean_list(dirty))
    L.append("")
    L.append("/-- attributes a fresh runner object has when its workers are about to start -/")
    L.append("def probedAttrs : List String :=\n  " + lean_list(attrs))
    L.append("")
    L.append("/-- the first runs after which some attribute of the object differs from a fresh object's at worker start, and the\n"
             "attributes concerned (union over the first runs) - i.e. the first runs do leave state behind that the next run\n"
             "has to re-establish.  (Which attributes a PARTICULAR first run leaves changed can depend on timing - e.g. whether\n"
             "the wait loop saw the process end before a dying worker ended the run - so only the union is recorded.) -/")
    L.append("def dirtied : List String :=\n  " + lean_list([d for d in dirty if any(a == d for a, _ in dirtied)]))
    L.append("def dirtiedAttrs : List String :=\n  " + lean_list(sorted({b for _, b in dirtied})))
    L.append("")
    L.append("/-- (first run, kind of second run, attribute, value on a fresh object, value on the reused object), at the\n"
             "moment the second run's workers are about to start, wherever the two differ -/")
    L.append("def carriedOver : List (String × String × String × String × String) :=\n  ["
             + ",\n   ".join("(%s)" % ", ".join(lean_str(x) for x in row) for row in rows) + "]")
    L.append("")
    L.append("/-- (first run, kind of second run, outcome on a fresh object, outcome on the reused object) of a second run that\n"
             "overruns its timeout of 0.3 s: the kill path is where `pid` / `process` / `status` are read -/")
    L.append("def overrunOutcomes : List (String × String × String × String) :=\n  ["
             + ",\n   ".join("(%s)" % ", ".join(lean_str(x) for x in row) for row in outcomes) + "]")
    return "\n".join(L)
