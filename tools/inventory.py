#!/usr/bin/env python3
"""Print the theorem inventory (markdown) from the evidence files written by the last runs of ./check."""
import glob
import json
import os

ROOT = os.path.dirname(os.path.dirname(os.path.abspath(__file__)))
print("| id | theorems (audited: axioms ⊆ propext, Classical.choice, Quot.sound) | examples | cases (quick) | failures matched by known findings |")
print("|---|---|---|---|---|")
for f in sorted(glob.glob(os.path.join(ROOT, "evidence", "C*.json"))):
    e = json.load(open(f))
    c = e.get("coverage", {})
    th = [t.split(".")[-1] for t in c.get("theorems", [])]
    print("| %s | %s | %s | %s | %s |" % (e.get("property_id"), ", ".join("`%s`" % t for t in th), c.get("nonvacuity_examples", ""),
                                      c.get("evaluations", ""), (lambda v: len(v) if isinstance(v, list) else v)(c.get("oracle_failures_matching_known_findings", 0))))
