"""Writes /verif/MANIFEST.json from the property modules under harness/props/."""
import importlib
import json
import os
import sys

VERIF = os.path.dirname(os.path.dirname(os.path.abspath(__file__)))
sys.path.insert(0, os.path.join(VERIF, "harness"))
sys.path.insert(0, os.path.join(VERIF, "tools"))
os.environ.setdefault("VERIF_REPO", "/repo")

ids = [json.loads(l)["id"] for l in open(os.path.join(VERIF, "properties.jsonl"))]
checks, na = [], []
claimed = open(os.path.join(VERIF, "CLAIMED")).read().split()
for pid in ids:
    path = os.path.join(VERIF, "harness", "props", pid.lower() + ".py")
    if pid not in claimed or not os.path.exists(path):
        na.append({"property_id": pid, "reason": "check not built yet in this round (model and proof plan in DESIGN.md section 3); not claimed"})
        continue
    m = importlib.import_module("props." + pid.lower())
    checks.append({
        "property_id": pid,
        "quick_cmd": "./check %s quick" % pid,
        "thorough_cmd": "./check %s thorough" % pid,
        "evidence_file": "evidence/%s.json" % pid,
        "replay_cmd_template": "./check --replay {path}",
        "engine": "lean4-proof+correspondence",
        "level_claimed": {"category": "proof", "text": m.LEVEL_TEXT, "design_ref": "DESIGN.md section 3, " + pid},
        "level_note": "; ".join(m.TRUSTED) + ". Assumptions: " + "; ".join(m.ASSUMPTIONS),
        "technique": m.TECHNIQUE,
    })
man = {
    "version": 1,
    "setup_cmd": "tools/setup.sh",
    "hooks": {
        "guard": "PYINVOKE_INVOKE_VERIF",
        "enable": "checks export PYINVOKE_INVOKE_VERIF=1; no source hooks are needed (scripted/gated runners are subclasses defined in the harness)",
        "baseline_off_cmd": "tools/baseline.sh /repo",
        "source_commits": [],
        "add_only": True,
    },
    "engines": [{
        "name": "lean4-proof+correspondence",
        "path": "check",
        "serves_properties": [c["property_id"] for c in checks],
        "kind_free_text": "Lean 4 theorems about an executable model (lean/Invoke), model tied to /repo on every run by regenerated tables (tools/extract.py) and a differential correspondence check against the real code (harness/), with an always-on Python oracle for the failing-input search",
    }],
    "checks": checks,
    "not_applicable": na,
    "notes": "Entry point ./check <ID> <quick|thorough>; ./check --replay <file>. Known findings: known_findings.json. See DESIGN.md.",
}
# merge known findings
import glob
kf = []
for f in sorted(glob.glob(os.path.join(VERIF, "known_findings.d", "*.json"))):
    if os.path.basename(f)[:-5] in claimed:
        kf += json.load(open(f))
json.dump({"comment": "Committed list of genuine defects of pyinvoke/invoke found by the checks (merged from known_findings.d/ by tools/mkmanifest.py; never written at run time). status=known: still present - printed as KNOWN-FINDING, suppresses only failures its match predicate recognises. status=fixed: repaired by the named fix: commit in /repo; suppresses nothing - its witness is replayed on every run and must pass.",
           "findings": kf}, open(os.path.join(VERIF, "known_findings.json"), "w"), indent=1)
# root module of the Lean library
props = sorted(p for p in claimed if os.path.exists(os.path.join(VERIF, "lean", "Invoke", "Props", p + ".lean")))
open(os.path.join(VERIF, "lean", "Invoke.lean"), "w").write("-- Root of the `Invoke` library.  The property files (Invoke/Props/Cnn.lean) are built one by one by\n-- tools/setup.sh and by each check (`lake build Invoke.Props.Cnn`); they are not imported here because\n-- independent models may reuse a definition name.  Claimed: " + " ".join(props) + "\n")
json.dump(man, open(os.path.join(VERIF, "MANIFEST.json"), "w"), indent=1)
print("checks:", [c["property_id"] for c in checks], "not claimed:", [n["property_id"] for n in na])
