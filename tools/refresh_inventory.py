#!/usr/bin/env python3
"""Rewrite the block between <!-- INVENTORY-BEGIN --> and <!-- INVENTORY-END --> in DESIGN.md from the evidence files
written by the last runs of ./check on /repo (tools/inventory.py)."""
import os
import subprocess
import sys

ROOT = os.path.dirname(os.path.dirname(os.path.abspath(__file__)))
p = os.path.join(ROOT, "DESIGN.md")
s = open(p).read()
b, e = "<!-- INVENTORY-BEGIN -->", "<!-- INVENTORY-END -->"
table = subprocess.run([sys.executable, os.path.join(ROOT, "tools", "inventory.py")], capture_output=True, text=True, check=True).stdout
if b not in s:
    sys.exit("markers missing in DESIGN.md")
i, j = s.index(b) + len(b), s.index(e)
open(p, "w").write(s[:i] + "\n" + table.rstrip("\n") + "\n" + s[j:])
