#!/bin/bash
# Run every claimed check (quick by default) against /repo, 4 at a time; print one line per check.
# usage: tools/runall.sh [quick|thorough]
cd "$(dirname "$0")/.." || exit 2
tier=${1:-quick}
printf '%s\n' $(cat CLAIMED) | xargs -P 4 -I{} sh -c './check {} '"$tier"' 2>&1 | grep -v "^KNOWN-FINDING" | tail -1'
