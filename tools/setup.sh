#!/bin/bash
# Build every claimed property file (models, lemmas, theorems) and every line-protocol driver, offline.
cd "$(dirname "$0")/../lean" || exit 2
exes=$(grep -A1 '^\[\[lean_exe\]\]' lakefile.toml | sed -n 's/^name = "\(.*\)"/\1/p')
props=$(for p in $(cat ../CLAIMED); do [ -f Invoke/Props/$p.lean ] && echo Invoke.Props.$p; done)
mkdir -p .lake
flock .lake/verif.lock lake build $props $exes
