#!/bin/bash
# Build the whole Lean library and every line-protocol driver, offline.
cd "$(dirname "$0")/../lean" || exit 2
exes=$(grep -A1 '^\[\[lean_exe\]\]' lakefile.toml | sed -n 's/^name = "\(.*\)"/\1/p')
mkdir -p .lake
flock .lake/verif.lock lake build Invoke $exes
